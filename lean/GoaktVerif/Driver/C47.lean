import GoaktVerif.Driver.Util
import GoaktVerif.Model.C47
import GoaktVerif.Spec.C47

/-
C47 line protocol.  case = `<p> <q> <minReq> <openTimeout> <window> <buckets> <hmax> <t0> <op> ...`
(raw option values, possibly invalid: NewCircuitBreaker sanitizes them; failureRate = p/q, q a power of two ≤ 64)
  b<i>     caller i enters Execute (ctx live): tryAcquire        -> A0 (admitted, no token) | A1 (admitted, token) | R
  e<i><o>  fn of caller i returns: o = s ok | f error | p panic | d deadline exceeded | c caller cancelled
  x        Execute with an already-cancelled ctx
  m        Metrics()                                              -> <succ>/<fail>
  t<d>     clock += d
  H / C    a preempted caller resumes with its stale `toHalfOpen()` / `toClosed()` (see Model.C47.COp)
output = `cfg:<rate*64>,<minReq>,<openTimeout>,<bucketNanos>,<num>,<hmax>` then one token per op:
  `<answer or .>|<state C/O/H>,<openUntil>,<sem>,<cursor>,<lastUpdate>,<lastFailure>,<lastSuccess>,<s0>/<f0>;<s1>/<f1>;...`
-/
namespace GoaktVerif.Driver.C47
open GoaktVerif.Driver GoaktVerif.Model.C47

def parseOp (w : String) : Option COp :=
  if w = "x" then some .precancelled
  else if w = "m" then some .metrics
  else if w = "H" then some .staleToHalfOpen
  else if w = "C" then some .staleToClosed
  else
    let rest := (w.drop 1).toString
    if w.startsWith "t" then rest.toNat?.map .tick
    else if w.startsWith "b" then rest.toNat?.map .begin
    else if w.startsWith "e" then
      let idS := (rest.dropEnd 1).toString
      let oc := (rest.drop (rest.length - 1)).toString
      match idS.toNat? with
      | none => none
      | some id =>
        if oc = "s" then some (.finish id .ok)
        else if oc = "f" || oc = "p" || oc = "d" then some (.finish id .fail)
        else if oc = "c" then some (.finish id .cancel)
        else none
    else none

def parseCase (line : String) : Option (RawOpts × Int × List COp) :=
  match words line with
  | p :: q :: mr :: ot :: win :: nb :: hm :: t0 :: ops =>
    match p.toInt?, q.toNat?, mr.toInt?, ot.toInt?, win.toInt?, nb.toInt?, hm.toInt?, t0.toInt?, ops.mapM parseOp with
    | some p, some q, some mr, some ot, some win, some nb, some hm, some t0, some ops =>
      if q = 0 then none else some (⟨p, q, mr, ot, win, nb, hm⟩, t0, ops)
    | _, _, _, _, _, _, _, _, _ => none
  | _ => none

def stName : St → String
  | .closed => "C"
  | .opened => "O"
  | .halfOpen => "H"

def dumpBr (b : Br) : String :=
  let bs := ";".intercalate (b.w.buf.map fun (s, f) => s!"{s}/{f}")
  s!"{stName b.state},{b.openUntil},{b.sem},{b.w.cursor},{b.w.lastUpdate},{b.lastFailure},{b.lastSuccess},{bs}"

def showCfg (cf : Conf) : String :=
  s!"cfg:{cf.p * 64 / cf.q},{cf.minReq},{cf.openTimeout},{cf.bucketNanos},{cf.num},{cf.hmax}"

def showOut : COut → String
  | .unit => "."
  | .admitted false => "A0"
  | .admitted true => "A1"
  | .rejected => "R"
  | .totals s f => s!"{s}/{f}"
  | .unknownCaller => "?"

def runOps (cf : Conf) (s : Sys) : List COp → List String → List String
  | [], acc => acc.reverse
  | op :: ops, acc =>
    let r := cstep cf s op
    runOps cf r.1 ops ((showOut r.2 ++ "|" ++ dumpBr r.1.b) :: acc)

def model (line : String) : String :=
  match parseCase line with
  | some (raw, t0, ops) =>
    let cf := mkConf (sanitize raw)
    " ".intercalate (showCfg cf :: runOps cf (Sys.new cf t0) ops [])
  | none => "bad-case"

/-! judge: replay on the SPEC machine (Spec.C47) and check the implementation's observations -/

open GoaktVerif.Spec.C47

/-- spec-side reading of the options: a valid value is kept, an invalid one becomes the documented default -/
def specConf (raw : RawOpts) : SConf :=
  let okRate := decide (0 ≤ raw.p) && decide (raw.p ≤ (raw.q : Int))
  let win : Int := if raw.window > 0 then raw.window else 60000000000
  let nb : Int := if raw.buckets ≥ 1 then raw.buckets else 12
  let bd := win / nb
  { p := if okRate then raw.p.toNat else 1, q := if okRate then raw.q else 2,
    minReq := if raw.minReq ≥ 1 then raw.minReq.toNat else 10,
    openTimeout := if raw.openTimeout > 0 then raw.openTimeout else 30000000000,
    bucketNanos := if bd ≤ 0 then 1 else bd, num := nb.toNat,
    hmax := if raw.hmax ≥ 1 then raw.hmax.toNat else 1 }

def sstName : SSt → String
  | .closed => "C"
  | .opened => "O"
  | .halfOpen => "H"

structure Obs where
  ans : String
  st : String
  openUntil : Int
  sem : Nat
  lastUpdate : Int
  sumS : Nat
  sumF : Nat

def parseBucket (s : String) : Option (Nat × Nat) :=
  match s.splitOn "/" with
  | [a, b] => match a.toNat?, b.toNat? with
    | some a, some b => some (a, b)
    | _, _ => none
  | _ => none

def parseObs (tok : String) : Option Obs :=
  match tok.splitOn "|" with
  | [ans, d] =>
    match d.splitOn "," with
    | [st, ou, sem, _cur, lu, _lf, _ls, bs] =>
      match ou.toInt?, sem.toNat?, lu.toInt?, (bs.splitOn ";").mapM parseBucket with
      | some ou, some sem, some lu, some bs =>
        some ⟨ans, st, ou, sem, lu, (bs.map Prod.fst).sum, (bs.map Prod.snd).sum⟩
      | _, _, _, _ => none
    | _ => none
  | _ => none

/-- compare an observed dump with the spec state; the message names a state-machine deviation
    as such (used by classify) -/
def checkObs (n : Nat) (now : Int) (prev : SBr) (b : SBr) (o : Obs) : Option String :=
  if o.st ≠ sstName b.state then
    let kind :=
      if sstName prev.state = "O" && o.st = "H" && decide (now < prev.openUntil) then "stale-transition Open->HalfOpen before openUntil"
      else if sstName prev.state = "O" && o.st = "C" then "stale-transition Open->Closed (no such edge)"
      else if sstName prev.state = "C" && o.st = "H" then "stale-transition Closed->HalfOpen (no such edge)"
      else "wrong-state"
    some s!"bad op#{n}: {kind}: breaker is {o.st}, the state machine is {sstName b.state} (now={now}, openUntil={prev.openUntil})"
  else if b.state = .opened && o.openUntil ≠ b.openUntil then
    some s!"bad op#{n}: openUntil {o.openUntil}, expected {b.openUntil}"
  else if o.sem ≠ b.probes then some s!"bad op#{n}: {o.sem} half-open tokens held, {b.probes} probes in flight"
  else if o.lastUpdate ≠ b.win.lastUpdate then
    some s!"bad op#{n}: window aligned at {o.lastUpdate}, the rolling window's newest bucket starts at {b.win.lastUpdate}"
  else if o.sumS ≠ sumS b.win.q || o.sumF ≠ sumF b.win.q then
    some s!"bad op#{n}: window totals {o.sumS}/{o.sumF}, rolling window holds {sumS b.win.q}/{sumF b.win.q}"
  else none

def judgeOps (cf : SConf) (now : Int) (b : SBr) (infl : List (Nat × Bool)) :
    List COp → List String → Nat → String
  | [], [], _ => "ok"
  | [], _ :: _, _ => "bad more answers than ops"
  | _ :: _, [], _ => "bad missing answer"
  | op :: ops, tok :: toks, n =>
    match parseObs tok with
    | none => s!"bad op#{n}: unparsable observation {tok}"
    | some o =>
      -- spec step
      let (now', b', infl', expect) : Int × SBr × List (Nat × Bool) × String :=
        match op with
        | .begin id =>
          if infl.any (fun c => c.1 == id) then (now, b, infl, "?") else
          let r := b.acquire cf now
          if r.1.1 then (now, r.2, (id, r.1.2) :: infl, if r.1.2 then "A1" else "A0") else (now, r.2, infl, "R")
        | .finish id oc =>
          match infl.find? (fun c => c.1 == id) with
          | none => (now, b, infl, "?")
          | some c =>
            let res := match oc with | .ok => some true | .fail => some false | .cancel => none
            (now, b.finish cf now res c.2, infl.filter (fun c => c.1 != id), ".")
        | .precancelled => (now, b, infl, ".")
        | .staleToHalfOpen =>
          -- a re-validating implementation turns HalfOpen only if still Open and the timeout has passed
          if b.state = .opened && decide (b.openUntil ≤ now) then
            (now, { b with state := .halfOpen, win := ⟨b.win.q.map (fun _ => (0, 0)), now⟩ }, infl, ".")
          else (now, b, infl, ".")
        | .staleToClosed =>
          if b.state = .halfOpen then (now, { b with state := .closed, win := ⟨b.win.q.map (fun _ => (0, 0)), now⟩ }, infl, ".")
          else (now, b, infl, ".")
        | .metrics =>
          let w := b.win.advance cf now
          (now, { b with win := w }, infl, s!"{sumS w.q}/{sumF w.q}")
        | .tick d => (now + d, b, infl, ".")
      match checkObs n now' b b' o with
      | some msg => msg
      | none =>
        if o.ans ≠ expect then
          s!"bad op#{n}: answered {o.ans}, the state machine says {expect} (state {sstName b.state}, now={now}, openUntil={b.openUntil}, probes={b.probes})"
        else judgeOps cf now' b' infl' ops toks (n + 1)

def judge (line : String) : String :=
  let (c, o) := splitTab line
  match parseCase c with
  | some (raw, t0, ops) =>
    if o.startsWith "panic" || o.startsWith "CRASH" then "bad implementation " ++ o else
    let cf := specConf raw
    match words o with
    | cfgTok :: toks =>
      let expectCfg := s!"cfg:{cf.p * 64 / cf.q},{cf.minReq},{cf.openTimeout},{cf.bucketNanos},{cf.num},{cf.hmax}"
      if cfgTok ≠ expectCfg then s!"bad options: breaker runs with {cfgTok}, documented sanitization gives {expectCfg}"
      else judgeOps cf t0 (SBr.new cf t0) [] ops toks 0
    | [] => "bad empty output"
  | none => "bad-case"

def run (args : List String) : IO UInt32 := runWith args model judge

end GoaktVerif.Driver.C47

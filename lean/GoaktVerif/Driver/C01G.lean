import GoaktVerif.Driver.Conc
import GoaktVerif.Model.C01G

namespace GoaktVerif.Driver.C01G
open GoaktVerif.Driver GoaktVerif.Model.C01G

def kindOf (c : Char) : Option Kind :=
  if c = 't' then some .user else if c = 'b' then some .block else if c = 'q' then some .req
  else if c = 'k' then some .tick else if c = 'z' then some .pill else if c = 'a' then some .resp else none

def kindChar : Kind → String
  | .user => "t" | .block => "b" | .req => "q" | .tick => "k" | .pill => "z" | .resp => "a"

def parseOp (op : String) : Op :=
  match op.toList with
  | c :: rest =>
    match (String.ofList rest).toNat? with
    | some n =>
      if c = 'w' then .work
      else match kindOf c with
        | some k => .send ⟨k, n⟩
        | none => .bad
    | none => .bad
  | [] => .bad

def showRes : Res → String
  | .ok => "ok" | .turn => "turn" | .idle => "idle" | .badop => "badop"

/-- block-request ids must be distinct (the harness uses them as correlation ids) -/
def wellFormed (progs : List (List Op)) : Bool :=
  let ids := progs.flatten.filterMap fun | .send ⟨.block, n⟩ => some n | _ => none
  ids.all fun n => ids.count n == 1

def showMsg (x : Msg) : String := kindChar x.kind ++ toString x.id

def final (c : Cfg) : String :=
  let c' := drainTurns 64 c
  let s := c'.sh
  let st := match s.sched with | .idle => "0" | .scheduled => "1" | .processing => "2"
  let pend : Bool := s.qR.len != 0 || (!pausedNow s && s.qM.len != 0)
  "H=" ++ ",".intercalate (s.handled.reverse.map showMsg) ++
    s!" O={s.maxIn} E={s.rq} S={st} QR={s.qR.cells.length} QM={s.qM.cells.length} LR={s.qR.len} LM={s.qM.len} B={s.outstanding.length} P={pend}"

def machine : Machine where
  Cfg := Cfg
  init := fun cfg progs =>
    match nats? (words cfg) with
    | some [_nw, budget, re] =>
      let progs := progs.map (·.map parseOp)
      if budget ≥ 1 && re ≤ 1 && wellFormed progs then some (Model.C01G.init (re == 1) budget progs) else none
    | _ => none
  nthreads := fun c => c.threads.length
  done := Model.C01G.done
  step := Model.C01G.step
  results := fun c => c.threads.map fun t => t.results.reverse.map showRes
  final := final

/-- macro-step / pct schedules and the pause op are search-only: not replayed on the model -/
def oracleOnly (line : String) : Bool :=
  match line.splitOn "|" with
  | [_, progs, sched] => sched.contains '*' || (words sched).head? == some "pct" || (words progs).contains "p"
  | _ => false

def model (line : String) : String := if oracleOnly line then "*" else runConc machine line

/-- spec oracle on the implementation's output.  C01: O ≤ 1.  C02: at the end (all threads done, worker 0 drained)
    the grain is Idle with no ready entry, hasPendingWork is false, the responses queue is empty, the user mailbox
    is empty unless the grain is paused (B > 0), the len counters equal the queue contents; nothing handled twice,
    nothing handled that was not accepted, every accepted user / request / tick / block message handled (when
    the mailbox is empty), a continuation only after its request, B = requests issued − continuations run;
    per-sender order kept within each queue. -/
def judge (line : String) : String :=
  let (c, o) := splitTab line
  match (o.splitOn " | F ") with
  | [_, fin] =>
    if fin = "unfinished" then "ok inconclusive" else
    let fields := words fin
    let get (k : String) : String := ((fields.find? (·.startsWith k)).map (fun s => (s.drop k.length).toString)).getD ""
    let num (k : String) : Nat := (get k).toNat?.getD 9999
    let handled := (get "H=").splitOn "," |>.filter (· ≠ "")
    let o' := num "O="
    if fields.contains "DEAD" then "bad: the grain was deactivated during the case"
    else if o' > 1 then s!"bad C01: {o'} handler invocations in progress at once"
    else if get "P=" ≠ "false" then "bad C02: hasPendingWork is still true after every worker went idle (lost wake-up)"
    else if num "S=" ≠ 0 then "bad C02: the dispatch state is not Idle at quiescence"
    else if num "E=" ≠ 0 then "bad C02: a ready-queue entry is left at quiescence"
    else if num "QR=" ≠ 0 then "bad C02: a response is still queued after every worker went idle (lost wake-up)"
    else if num "QM=" ≠ 0 && num "B=" = 0 then "bad C02: a user message is still queued in a grain that is not paused (lost wake-up)"
    else if get "LR=" ≠ get "QR=" || get "LM=" ≠ get "QM=" then "bad: a len counter differs from the queue contents at quiescence"
    else
      match (c.splitOn "|"), (o.splitOn " | R ") with
      | [cfg, progs, _], [_, rest] =>
        let reent := (words cfg).getD 2 "0" = "1"
        let rs := ((rest.splitOn " | F ").headD "").splitOn ";" |>.map (fun r => r.splitOn ",")
        let ps := (progs.splitOn ";").map words
        let accOf (p r : List String) : List String := (p.zip r).filterMap fun (op, res) =>
          if res = "ok" && !(op.startsWith "w") && op ≠ "p" then some op else none
        let acc := (ps.zip rs).flatMap fun (p, r) => accOf p r
        let accM := acc.filter fun a => !(a.startsWith "a") && !(a.startsWith "z")
        let hM := handled.filter fun h => !(h.startsWith "a")
        let hA := handled.filter (·.startsWith "a")
        let idx (h : String) : Nat := handled.idxOf h
        if handled.any (fun h => handled.count h > 1) then "bad C02: a message was handled twice"
        else if handled.any (fun h => !acc.contains h) then "bad C02: a message was handled that was not accepted"
        else if num "QM=" = 0 && accM.any (fun a => !hM.contains a) then "bad C02: an accepted message was never handled"
        else if accM.length - hM.length > num "QM=" then "bad C02: an accepted message is neither handled nor queued"
        else if hA.any (fun a => let b := "b" ++ (a.drop 1).toString; !(handled.contains b) || idx b > idx a) then
          "bad C02: a continuation ran without its request"
        else if reent && num "B=" + hA.length ≠ (hM.filter (·.startsWith "b")).length then "bad: blocking count differs from requests issued minus continuations run"
        else if !reent && (num "B=" ≠ 0 || !hA.isEmpty) then "bad: a request was tracked without reentrancy"
        else
          let okOrder := (ps.zip rs).all fun (p, r) =>
            let mine := accOf p r
            let mM := mine.filter fun a => !(a.startsWith "a") && !(a.startsWith "z")
            let mA := mine.filter (·.startsWith "a")
            (hM.filter (mM.contains ·)) == (mM.filter (hM.contains ·)) && (hA.filter (mA.contains ·)) == (mA.filter (hA.contains ·))
          if okOrder then "ok" else "bad C03: one sender's messages were handled out of order"
      | _, _ => "bad unparsable"
  | _ => if o.startsWith "bad-case" then "ok" else "bad unparsable: " ++ o

def run (args : List String) : IO UInt32 := runWith args model judge

end GoaktVerif.Driver.C01G

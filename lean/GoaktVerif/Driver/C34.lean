import GoaktVerif.Driver.Util
import GoaktVerif.Model.C34
import GoaktVerif.Spec.C34

namespace GoaktVerif.Driver.C34
open GoaktVerif.Driver GoaktVerif.Model.C34 GoaktVerif.Spec.C34

/-- node letters: s = local node (0), a.. = peers 1.. -/
def nodeOf (c : Char) : Option Node :=
  if c = 's' then some 0
  else if 'a' ≤ c ∧ c ≤ 'z' then some (c.toNat - 'a'.toNat + 1) else none

def letterOf (n : Node) : String :=
  if n = 0 then "s" else String.singleton (Char.ofNat ('a'.toNat + n - 1))

def digitOf (c : Char) : Option Nat := if c.isDigit then some (c.toNat - '0'.toNat) else none

def parseOp (w : String) : Option Op :=
  match w.toList with
  | ['j', n] => (nodeOf n).map Op.join
  | ['l', n, c] => do let n ← nodeOf n; let c ← digitOf c; pure (Op.left n c)
  | ['S', r, e, n] => do
    let r ← (if r = 'L' then some Reason.left else if r = 'J' then some Reason.join else if r = 'O' then some Reason.other else none)
    let e ← digitOf e; let n ← nodeOf n; pure (Op.start r n e)
  | ['C', e] => (digitOf e).map Op.complete
  | ['o', n] => (nodeOf n).map Op.overdue
  | _ => none

def parseHist (line : String) : Option (List Op) := (words line).mapM parseOp

/-- nodes that can carry state: s and a..z -/
def allNodes : List Node := List.range 27

def showEv (n : Node) (e : Ev) : List String :=
  (match e.join with | some t => [s!"J{letterOf n}@{t}"] | none => []) ++
  (match e.left with | some t => [s!"L{letterOf n}@{t}"] | none => [])

/-- insertion sort on strings (the harness sorts the events of a step) -/
def insertS (x : String) : List String → List String
  | [] => [x]
  | y :: ys => if x ≤ y then x :: y :: ys else y :: insertS x ys
def sortS (l : List String) : List String := l.foldr insertS []

def showStep (o : Node → Ev) : String :=
  let evs := sortS (allNodes.flatMap fun n => showEv n (o n))
  if evs.isEmpty then "-" else ",".intercalate evs

def digest (s : St) : String :=
  let nodes := allNodes
  let ts (f : Loc → Option Nat) := ",".intercalate (sortS (nodes.filterMap fun n => (f (s.loc n)).map fun t => s!"{letterOf n}@{t}"))
  let ep (f : Loc → Option Nat) := ",".intercalate (sortS (nodes.filterMap fun n => (f (s.loc n)).map fun e => s!"{letterOf n}{e}"))
  let eps (f : Epoch → Bool) := String.join ((List.range 10).filterMap fun e => if f e then some (toString e) else none)
  let ns (f : Loc → Bool) := String.join (sortS (nodes.filterMap fun n => if f (s.loc n) then some (letterOf n) else none))
  s!"jt={ts (·.joinTs)};lt={ts (·.leftTs)};je={ep (·.joinEp)};le={ep (·.leftEp)};jl={s.g.joinLatest};ll={s.g.leftLatest};ss={eps s.g.startSeen};cs={eps s.g.completeSeen};jf={ns (·.joinF)};lf={ns (·.leftF)}"

def model (line : String) : String :=
  match parseHist line with
  | none => "bad-case"
  | some h =>
    let (outs, s) := run h
    " ".intercalate (outs.map showStep) ++ " | " ++ digest s

/-- parse `La@3` / `Jb@12` -/
def parseObs (w : String) : Option Obs :=
  match w.toList with
  | k :: n :: '@' :: ds =>
    match nodeOf n, (String.ofList ds).toNat? with
    | some n, some t => if k = 'L' then some ⟨true, n, t⟩ else if k = 'J' then some ⟨false, n, t⟩ else none
    | _, _ => none
  | _ => none

def parseObsStep (w : String) : Option (List Obs) :=
  if w = "-" then some [] else (w.splitOn ",").mapM parseObs

def judge (line : String) : String :=
  let (c, o) := splitTab line
  match parseHist c with
  | none => "ok"   -- not a case of this property (the harness answered bad-case)
  | some h =>
    match (o.splitOn " | ") with
    | stepsS :: _ =>
      match (words stepsS).mapM parseObsStep with
      | none => "bad unparsable output"
      | some obs =>
        match verdict h obs with
        | none => "ok"
        | some w => "bad " ++ w
    | [] => "bad unparsable output"

def run (args : List String) : IO UInt32 := runWith args model judge

end GoaktVerif.Driver.C34

import GoaktVerif.Driver.Util
import GoaktVerif.Model.C34
import GoaktVerif.Spec.C34

namespace GoaktVerif.Driver.C34
open GoaktVerif.Driver GoaktVerif.Model.C34 GoaktVerif.Spec.C34

/-- node letters: s = local node (0), a.. = peers 1.. -/
def nodeOf (c : Char) : Option Node :=
  if c = 's' then some 0
  else if 'a' ≤ c ∧ c ≤ 'z' then some (c.toNat - 'a'.toNat + 1) else none

def letterOf (n : Node) : String :=
  if n = 0 then "s" else String.singleton (Char.ofNat ('a'.toNat + n - 1))

def digitOf (c : Char) : Option Nat := if c.isDigit then some (c.toNat - '0'.toNat) else none

def parseOp (w : String) : Option Op :=
  match w.toList with
  | ['j', n] => (nodeOf n).map Op.join
  | ['l', n, c] => do let n ← nodeOf n; let c ← digitOf c; pure (Op.left n c)
  | ['S', r, e, n] => do
    let r ← (if r = 'L' then some Reason.left else if r = 'J' then some Reason.join else if r = 'O' then some Reason.other else none)
    let e ← digitOf e; let n ← nodeOf n; pure (Op.start r n e)
  | ['C', e] => (digitOf e).map Op.complete
  | ['o', n] => (nodeOf n).map Op.overdue
  | _ => none

def parseHist (line : String) : Option (List Op) := (words line).mapM parseOp

/-- nodes that can carry state: s and a..z -/
def allNodes : List Node := List.range 27

def showEv (n : Node) (e : Ev) : List String :=
  (match e.join with | some t => [s!"J{letterOf n}@{t}"] | none => []) ++
  (match e.left with | some t => [s!"L{letterOf n}@{t}"] | none => [])

/-- insertion sort on strings (the harness sorts the events of a step) -/
def insertS (x : String) : List String → List String
  | [] => [x]
  | y :: ys => if x ≤ y then x :: y :: ys else y :: insertS x ys
def sortS (l : List String) : List String := l.foldr insertS []

def showStepOn (nodes : List Node) (o : Node → Ev) : String :=
  let evs := sortS (nodes.flatMap fun n => showEv n (o n))
  if evs.isEmpty then "-" else ",".intercalate evs

def showStep (o : Node → Ev) : String := showStepOn allNodes o

def digestOn (nodes : List Node) (epochs : List Nat) (s : St) : String :=
  let ts (f : Loc → Option Nat) := ",".intercalate (sortS (nodes.filterMap fun n => (f (s.loc n)).map fun t => s!"{letterOf n}@{t}"))
  let ep (f : Loc → Option Nat) := ",".intercalate (sortS (nodes.filterMap fun n => (f (s.loc n)).map fun e => s!"{letterOf n}{e}"))
  let eps (f : Epoch → Bool) := String.join (epochs.filterMap fun e => if f e then some (toString e) else none)
  let ns (f : Loc → Bool) := String.join (sortS (nodes.filterMap fun n => if f (s.loc n) then some (letterOf n) else none))
  s!"jt={ts (·.joinTs)};lt={ts (·.leftTs)};je={ep (·.joinEp)};le={ep (·.leftEp)};jl={s.g.joinLatest};ll={s.g.leftLatest};ss={eps s.g.startSeen};cs={eps s.g.completeSeen};jf={ns (·.joinF)};lf={ns (·.leftF)}"

def digest (s : St) : String := digestOn allNodes (List.range 10) s

/-! ### exhaustive enumeration (`enum <L> <prefix…>`): the model is persistent, so all histories of
length ≤ L are visited by one depth-first walk; every visited history contributes
FNV-1a64(history TAB output) to an order-independent sum, exactly as the harness does. -/

def enumTokens : List String := ["la1", "la2", "lb1", "lb2", "SL1a", "C1", "SL2a", "C2", "oa", "ob", "ja", "jb", "SJ1a", "SJ2a"]
def enumNodes : List Node := [0, 1, 2]
def enumEpochs : List Nat := [0, 1, 2]

def fnv1a64 (s : String) : UInt64 :=
  s.toUTF8.foldl (fun h b => (h ^^^ b.toUInt64) * 1099511628211) 14695981039346656037

/-- make the per-node state strict on the nodes the enumeration uses (the model's `step` wraps the
    previous state in a closure; without this every lookup would replay the whole history) -/
def freeze (s : St) : St :=
  let l0 := s.loc 0
  let l1 := s.loc 1
  let l2 := s.loc 2
  let ss0 := s.g.startSeen 0; let ss1 := s.g.startSeen 1; let ss2 := s.g.startSeen 2
  let cs0 := s.g.completeSeen 0; let cs1 := s.g.completeSeen 1; let cs2 := s.g.completeSeen 2
  { g := { s.g with startSeen := fun e => if e = 0 then ss0 else if e = 1 then ss1 else if e = 2 then ss2 else false,
                    completeSeen := fun e => if e = 0 then cs0 else if e = 1 then cs1 else if e = 2 then cs2 else false },
    loc := fun n => if n = 0 then l0 else if n = 1 then l1 else if n = 2 then l2 else Loc.init }

structure EnumAcc where
  n : Nat
  h : UInt64

def contribute (acc : EnumAcc) (hs ss : String) (s : St) : EnumAcc :=
  ⟨acc.n + 1, acc.h + fnv1a64 (hs ++ "\t" ++ ss ++ " | " ++ digestOn enumNodes enumEpochs s)⟩

/-- visit the history `hs` (state `s`, `k` ops, step outputs `ss`) and all its extensions of at
    most `depth` more ops -/
def enumWalk (al : List (String × Op)) : Nat → St → Nat → String → String → EnumAcc → EnumAcc
  | depth, s, k, hs, ss, acc =>
    let acc := contribute acc hs ss s
    match depth with
    | 0 => acc
    | d + 1 =>
      al.foldl (fun acc (tok, op) =>
        let r := step s (k + 1) op
        let s' := freeze r.1
        enumWalk al d s' (k + 1) (hs ++ " " ++ tok) (ss ++ " " ++ showStepOn enumNodes r.2) acc) acc

def hex16 (x : UInt64) : String :=
  let ds := (Nat.toDigits 16 x.toNat)
  String.ofList (List.replicate (16 - ds.length) '0' ++ ds)

def enumModel (maxLen : Nat) (prefixToks : List String) : String :=
  match prefixToks.mapM parseOp, enumTokens.mapM parseOp with
  | some pre, some alOps =>
    if pre.length > maxLen ∨ maxLen > 8 then "bad-case" else
    let al := enumTokens.zip alOps
    -- run the prefix
    let (s, k, hs, ss) := (prefixToks.zip pre).foldl
      (fun (st : St × Nat × String × String) (tok, op) =>
        let (s, k, hs, ss) := st
        let r := step s (k + 1) op
        (freeze r.1, k + 1, (if k = 0 then tok else hs ++ " " ++ tok),
         (if k = 0 then showStepOn enumNodes r.2 else ss ++ " " ++ showStepOn enumNodes r.2)))
      (init, 0, "", "")
    let acc : EnumAcc :=
      if k = 0 then
        -- no prefix: the empty history is not a case; start from its one-op extensions
        al.foldl (fun acc (tok, op) =>
          let r := step init 1 op
          enumWalk al (maxLen - 1) (freeze r.1) 1 tok (showStepOn enumNodes r.2) acc) ⟨0, 0⟩
      else enumWalk al (maxLen - k) s k hs ss ⟨0, 0⟩
    s!"n={acc.n} h={hex16 acc.h}"
  | _, _ => "bad-case"

def model (line : String) : String :=
  match words line with
  | "enum" :: l :: pre =>
    match l.toNat? with
    | some l => enumModel l pre
    | none => "bad-case"
  | _ =>
  match parseHist line with
  | none => "bad-case"
  | some h =>
    let (outs, s) := run h
    " ".intercalate (outs.map showStep) ++ " | " ++ digest s

/-- parse `La@3` / `Jb@12` -/
def parseObs (w : String) : Option Obs :=
  match w.toList with
  | k :: n :: '@' :: ds =>
    match nodeOf n, (String.ofList ds).toNat? with
    | some n, some t => if k = 'L' then some ⟨true, n, t⟩ else if k = 'J' then some ⟨false, n, t⟩ else none
    | _, _ => none
  | _ => none

def parseObsStep (w : String) : Option (List Obs) :=
  if w = "-" then some [] else (w.splitOn ",").mapM parseObs

def judge (line : String) : String :=
  let (c, o) := splitTab line
  match parseHist c with
  | none => "ok"   -- not a case of this property (the harness answered bad-case)
  | some h =>
    match (o.splitOn " | ") with
    | stepsS :: _ =>
      match (words stepsS).mapM parseObsStep with
      | none => "bad unparsable output"
      | some obs =>
        match verdict h obs with
        | none => "ok"
        | some w => "bad " ++ w
    | [] => "bad unparsable output"

def run (args : List String) : IO UInt32 := runWith args model judge

end GoaktVerif.Driver.C34

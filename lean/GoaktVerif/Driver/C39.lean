import GoaktVerif.Driver.Util
import GoaktVerif.Model.C39
import GoaktVerif.Spec.C39

/-!
C39 driver: the multi-replica script of `harness/verifdrv/c39/main.go` against the replicator model
(`Model.C41.step`) instantiated with the concrete CRDT models (`Model.C40.CV` over `Model/Crdt/*`),
every published delta / full state going through the codec model (`Model.C40.wire`).
Judge: `Spec.C39` (expected value from the history of updates and the seen sets) on the
implementation's dumps.
-/
namespace GoaktVerif.Driver.C39
open GoaktVerif.Driver GoaktVerif.Model.Crdt GoaktVerif.Model.C40 GoaktVerif.Model.C41 GoaktVerif.Model.C39 GoaktVerif.Spec.C39

/-! ### dumps (crdt.VerifDump) -/

def pMap (m : AMap Nat) (sep : String := ",") : String := sep.intercalate (m.map fun p => s!"{p.1}.{p.2}")
def pDot (d : Dot) : String := s!"{d.nodeID}.{d.counter}"
def sortDots (l : List Dot) : List Dot := l.mergeSort (fun a b => !Dot.lt b a)
def pDotMap (m : AMap (List Dot)) : String :=
  ",".intercalate (m.map fun p => s!"{p.1}:" ++ "+".intercalate ((sortDots p.2).map pDot))
def pB (b : Bool) : String := if b then "1" else "0"
def pNats (l : List Nat) : String := ",".intercalate (l.map toString)
def pOpt : Option Nat → String
  | none => "_"
  | some v => toString v
def gcState (c : GCounter) : String := pMap c.state ++ "/" ++ pMap c.delta
def osState (s : ORSet) : String :=
  pDotMap s.entries ++ "/" ++ pMap s.clock ++ "/" ++ pDotMap s.delta.added ++ "/" ++ pDotMap s.delta.removed
def pValMap (m : AMap GCounter) : String :=
  ",".intercalate (m.map fun p => s!"{p.1}>{pMap p.2.state "+"}>{pMap p.2.delta "+"}")

def dumpCV : CV → String
  | .gc c => gcState c ++ "~" ++ toString c.value
  | .pn c => gcState c.increments ++ "/" ++ gcState c.decrements ++ "~" ++ toString c.value
  | .fl x => pB x.enabled ++ "/" ++ pB x.dirty ++ "~" ++ pB x.value
  | .lw r => s!"{pOpt r.value}/{r.timestamp}/{r.nodeID}/{pB r.dirty}~{pOpt r.value}"
  | .mv r => ",".intercalate (r.entries.map fun e => s!"{e.value}@{pDot e.dot}") ++ "/" ++ pMap r.clock ++ "/" ++ pB r.dirty
      ++ "~" ++ pNats r.values
  | .os s => osState s ++ "~" ++ pNats s.elements ++ "#" ++ toString s.len
  | .om m => osState m.keys ++ "/" ++ pValMap m.values ++ "/" ++ pB m.dirty ++ "~" ++ pNats m.keyList ++ "#" ++ toString m.len
      ++ "#" ++ pValMap m.entriesOf

/-! ### keys: the key id is the `crdt.DataType` number -/

def keyNum : String → Option Nat
  | "gc" => some 0 | "pn" => some 1 | "lw" => some 2 | "os" => some 3 | "om" => some 4 | "fl" => some 5 | "mv" => some 6
  | _ => none

def keyName : Nat → String
  | 0 => "gc" | 1 => "pn" | 2 => "lw" | 3 => "os" | 4 => "om" | 5 => "fl" | 6 => "mv" | _ => "?"

def initial : Nat → CV
  | 0 => .gc .new | 1 => .pn .new | 2 => .lw .new | 3 => .os .new | 4 => .om .new | 5 => .fl .new | _ => .mv .new

/-- the user's Modify closure (`me` = the node name number of the replica) -/
def modify (me : Nat) (k : Nat) (mu : String) : Option (CV → CV) :=
  let a := mu.splitOn "."
  let n := fun (i : Nat) => ((a.getD i "").toNat?).getD 0
  let z := fun (i : Nat) => ((a.getD i "").toInt?).getD 0
  match k, a.headD "" with
  | 0, "i" => some fun | .gc c => .gc (c.increment me (n 1)) | v => v
  | 1, "i" => some fun | .pn c => .pn (c.increment me (n 1)) | v => v
  | 1, "d" => some fun | .pn c => .pn (c.decrement me (n 1)) | v => v
  | 5, "e" => some fun | .fl x => .fl x.enable | v => v
  | 2, "s" => some fun | .lw r => .lw (r.set (n 1) (z 2) me) | v => v
  | 6, "s" => some fun | .mv r => .mv (r.set me (n 1)) | v => v
  | 3, "a" => some fun | .os s => .os (s.add me (n 1)) | v => v
  | 3, "r" => some fun | .os s => .os (s.remove (n 1)) | v => v
  | 4, "s" => some fun | .om m => .om (m.set me (n 1) (GCounter.new.increment me (n 2))) | v => v
  | 4, "r" => some fun | .om m => .om (m.remove (n 1)) | v => v
  | _, _ => none

inductive Logged where
  | delta (d : DeltaMsg CV)
  | full (es : List (Nat × Nat × CV))

def sortS (l : List String) : List String := l.mergeSort (fun a b => decide (a ≤ b))

def rLogged : Logged → String
  | .delta d => s!"D({keyName d.key},{d.origin},{dumpCV d.data})"
  | .full es => "F(" ++ ";".intercalate (sortS (es.map fun e => s!"{keyName e.1}={dumpCV e.2.2}")) ++ ")"

structure World where
  reps : List (Rep CV)
  log : List Logged

def firsts {α : Type} (m : List (Nat × α)) : List (Nat × α) :=
  m.foldl (fun acc p => if acc.any (fun q => q.1 == p.1) then acc else acc ++ [p]) []

def dump (r : Rep CV) : String :=
  let es := (firsts r.store).map fun p => (keyName p.1, s!"{keyName p.1}={dumpCV p.2}^{(aget r.versions p.1).getD 0}")
  ";".intercalate ((es.mergeSort (fun a b => decide (a.1 ≤ b.1))).map (·.2))

/-- what goes on the wire is what the codec makes of it (encodeDelta / EncodeCRDT, then DecodeCRDT) -/
def pubs (os : List (Out CV)) : List Logged :=
  os.filterMap fun
    | .pubDelta d => (wire idSer d.data).map fun v => .delta { d with data := v }
    | .full es => some (.full (es.filterMap fun e => (wire idSer e.2.2).map fun v => (e.1, e.2.1, v)))
    | _ => none

def finish (w : World) (i : Nat) (r : Rep CV) (res : String) (os : List (Out CV)) : World × String :=
  let ps := pubs os
  ({ reps := w.reps.set i r, log := w.log ++ ps }, res ++ String.join (ps.map fun p => "+" ++ rLogged p) ++ "!" ++ dump r)

def opStep (w : World) (tok : String) : World × String :=
  let f := tok.splitOn ":"
  let bad := (w, "bad-op")
  match f with
  | kind :: rs :: rest =>
    match rs.toNat? with
    | none => bad
    | some i =>
      match w.reps[i]? with
      | none => bad
      | some r =>
        match kind, rest with
        | "u", [k, mu] =>
          match keyNum k with
          | some k =>
            match modify (i + 1) k mu with
            | some fn => let (r', os) := step cvOps r (.update k k (initial k) fn); finish w i r' "ok" os
            | none => bad
          | none => bad
        | "g", [k] =>
          match keyNum k with
          | some k =>
            let res := match aget r.store k with | some v => dumpCV v | none => "nil"
            finish w i r res []
          | none => bad
        | "s", [j] =>
          match j.toNat?.bind (w.log[·]?) with
          | some (.delta d) => finish w i (step cvOps r (.delta d)).1 "ok" []
          | some (.full es) => finish w i (step cvOps r (.fullState es)).1 "ok" []
          | none => finish w i r "noop" []
        | "a", [q] =>
          match q.toNat? with
          | some q =>
            match w.reps[q]? with
            | some rq =>
              let dg := (firsts r.store).map fun p => (p.1, (aget r.versions p.1).getD 0)
              let (rq', os) := step cvOps rq (.digest dg)
              finish w q rq' "ok" os
            | none => bad
          | none => bad
        | "p", [] => finish w i (step cvOps r (.prune 0)).1 "ok" []
        | _, _ => bad
  | _ => bad

def parseHead (f : List String) : Option (Nat × List String) :=
  match f with
  | n :: ops =>
    if n.startsWith "n=" then
      match (n.drop 2).toString.toNat? with
      | some n => if 1 ≤ n ∧ n ≤ 4 then some (n, ops) else none
      | none => none
    else none
  | _ => none

def model (line : String) : String :=
  match parseHead (words line) with
  | none => "bad-case"
  | some (n, ops) =>
    let w0 : World := ⟨(List.range n).map fun i => Rep.init i 0, []⟩
    let (_, outs) := ops.foldl (fun (acc : World × List String) tok =>
      let (w', o) := opStep acc.1 tok
      (w', o :: acc.2)) (w0, [])
    " ".intercalate outs.reverse

/-! ### judge -/

def parseMut (k : String) (mu : String) : Option Mut :=
  let a := mu.splitOn "."
  let n := fun (i : Nat) => ((a.getD i "").toNat?).getD 0
  let z := fun (i : Nat) => ((a.getD i "").toInt?).getD 0
  match k, a.headD "" with
  | "gc", "i" => some (.gcInc (n 1))
  | "pn", "i" => some (.pnInc (n 1))
  | "pn", "d" => some (.pnDec (n 1))
  | "fl", "e" => some .flEnable
  | "lw", "s" => some (.lwSet (n 1) (z 2))
  | "mv", "s" => some (.mvSet (n 1))
  | "os", "a" => some (.osAdd (n 1))
  | "os", "r" => some (.osRem (n 1))
  | "om", "s" => some (.omSet (n 1) (n 2))
  | "om", "r" => some (.omRem (n 1))
  | _, _ => none

def natList (s : String) : List Nat := (s.splitOn ",").filterMap String.toNat?

/-- the public value printed after `~` in a dump, canonically -/
def parseVal (key : String) (dumpS : String) : Option Val :=
  match dumpS.splitOn "~" with
  | [_, v] =>
    match key with
    | "gc" | "pn" => v.toInt?.map .nat
    | "fl" => some (.bool (v == "1"))
    | "lw" => if v == "_" then some (.opt none) else v.toNat?.map fun n => .opt (some n)
    | "mv" => some (.set (sortDedup (natList v)))
    | "os" | "om" => some (.set (sortDedup (natList ((v.splitOn "#").headD ""))))
    | _ => none
  | _ => none

/-- everything after `~` (for OR-maps this includes the values): what must agree between replicas -/
def rawVal (key : String) (dumpS : String) : String :=
  let v := (dumpS.splitOn "~").getD 1 ""
  if key == "mv" then toString (sortDedup (natList v))
  else if key == "om" then
    -- entries `k>state>delta`: drop the pending-delta part of the nested counters
    let parts := v.splitOn "#"
    (parts.getD 0 "") ++ "#" ++ ",".intercalate (((parts.getD 2 "").splitOn ",").map fun e => ">".intercalate ((e.splitOn ">").take 2))
  else v

/-- per replica: key ↦ (seen ids, last printed dump) -/
abbrev RepView := List (String × List Nat × String)

def getSeen (v : RepView) (k : String) : List Nat := ((v.find? (·.1 == k)).map (·.2.1)).getD []
def setSeen (v : RepView) (k : String) (s : List Nat) : RepView :=
  match v.find? (·.1 == k) with
  | some e => v.map fun x => if x.1 == k then (k, s, e.2.2) else x
  | none => v ++ [(k, s, "")]
def setDump (v : RepView) (k : String) (d : String) : RepView :=
  match v.find? (·.1 == k) with
  | some e => v.map fun x => if x.1 == k then (k, e.2.1, d) else x
  | none => v ++ [(k, [], d)]

def union (a b : List Nat) : List Nat := a ++ b.filter (fun x => !a.contains x)

/-- a logged message as the judge sees it: per key, the updates it carries; deltas know their origin -/
structure JMsg where
  origin : Option Nat
  carried : List (String × List Nat)

structure JState where
  hist : List Upd
  views : List RepView
  log : List JMsg

/-- updates carried by the delta of update `u` (performed at `rep`, seen set `after` afterwards) -/
def carriedBy (hist : List Upd) (u : Upd) (after : List Nat) : List Nat :=
  let sameKind (m : Mut) : Bool :=
    match u.op, m with
    | .gcInc _, .gcInc _ => true
    | .pnInc _, .pnInc _ => true
    | .pnDec _, .pnDec _ => true
    | _, _ => false
  match u.key with
  | "gc" | "pn" => u.id :: (hist.filter fun x => x.key == u.key && x.rep == u.rep && sameKind x.op).map (·.id)
  | "os" => [u.id]
  | _ => after   -- full-state deltas: flag, lww, mv register, or-map

/-- a delta was published by this op -/
def hasDelta (res : String) : Bool := (res.splitOn "+D(").length > 1

/-- keys of a rendered `+F(k=dump;k=dump..)` marker (dumps contain neither `;` nor `=`) -/
def fullKeys (res : String) : Option (List String) :=
  match res.splitOn "+F(" with
  | _ :: m :: _ => some (((m.splitOn ";").map fun e => (e.splitOn "=").headD "").filter (· ≠ ""))
  | _ => none

def describe : Val → String
  | .nat n => toString n
  | .bool b => if b then "1" else "0"
  | .opt o => match o with | some n => toString n | none => "_"
  | .set l => ",".intercalate (l.map toString)

/-- check the dump of replica `i` (after an op) against the spec; returns a failure text -/
def checkRep (st : JState) (i : Nat) (dumpS : String) : Option String :=
  let v := st.views.getD i []
  let entries := (dumpS.splitOn ";").filter (· ≠ "")
  entries.findSome? fun e =>
    match e.splitOn "=" with
    | [k, rest] =>
      let d := (rest.splitOn "^").headD ""
      let seen := getSeen v k
      match parseVal k d with
      | none => some s!"key={k} kind=parse"
      | some act =>
        if !valueOK st.hist k seen act then
          let exp := "|".intercalate ((expected st.hist k seen).map describe)
          let stale := (seenUpds st.hist k seen).any fun u => match u.op, act with
            | .lwSet x _, .opt (some y) => x == y
            | _, _ => false
          some s!"key={k} kind=value exp={exp} act={describe act} stale={if stale then 1 else 0}"
        else
          -- convergence with every other replica that has seen the same set
          (List.range st.views.length).findSome? fun j =>
            if j == i then none else
            let vj := st.views.getD j []
            match vj.find? (·.1 == k) with
            | some (_, sj, dj) =>
              if dj != "" && sameSet sj seen && rawVal k dj != rawVal k d then
                let rem := (seenUpds st.hist k seen).any fun u => match u.op with | .omRem _ => true | _ => false
                some s!"key={k} kind=converge other={j} a={rawVal k d} b={rawVal k dj} rem={if rem then 1 else 0}"
              else none
            | none => none
    | _ => some "kind=parse"

def storeDumps (v : RepView) (dumpS : String) : RepView :=
  ((dumpS.splitOn ";").filter (· ≠ "")).foldl (fun v e =>
    match e.splitOn "=" with
    | [k, rest] => setDump v k ((rest.splitOn "^").headD "")
    | _ => v) v

def judgeOps : List String → List String → Nat → JState → String
  | [], [], _, _ => "ok"
  | tok :: toks, out :: outs, idx, st =>
    if out == "bad-op" then judgeOps toks outs (idx + 1) st else
    let f := tok.splitOn ":"
    match out.splitOn "!" with
    | [res, d] =>
      let who := if f.head? = some "a" then (f.getD 2 "") else (f.getD 1 "")
      match who.toNat?, (f.getD 1 "").toNat? with
      | some i, some r =>
        -- 1. seen sets / history / log
        let st1 : JState :=
          match f.head?, f with
          | some "u", [_, _, k, mu] =>
            match parseMut k mu with
            | some m0 =>
              let v := st.views.getD r []
              let ctx := getSeen v k
              -- an LWW write is recorded with its effective timestamp (Spec.C39.lwEffective), or as refused
              let m : Mut := match m0 with
                | .lwSet x ts =>
                  match lwEffective (seenUpds st.hist k ctx) r ts with
                  | some ets => .lwSet x ets
                  | none => .lwRefused
                | other => other
              let u : Upd := ⟨st.hist.length, r, k, m, ctx⟩
              let after := union ctx [u.id]
              let hist := st.hist ++ [u]
              let log := if hasDelta res then st.log ++ [⟨some r, [(k, carriedBy hist u after)]⟩] else st.log
              { hist := hist, views := st.views.set r (setSeen v k after), log := log }
            | none => st
          | some "a", _ =>
            -- q = i answered; its full state carries what it has seen for each key sent
            match fullKeys res with
            | some ks =>
              let vq := st.views.getD i []
              { st with log := st.log ++ [⟨none, ks.map fun k => (k, getSeen vq k)⟩] }
            | none => st
          | some "s", _ =>
            if res != "ok" then st else
            match (f.getD 2 "").toNat?.bind (st.log[·]?) with
            | some m =>
              if m.origin == some r then st else
              let v := m.carried.foldl (fun v kc => setSeen v kc.1 (union (getSeen v kc.1) kc.2)) (st.views.getD r [])
              { st with views := st.views.set r v }
            | none => st
          | _, _ => st
        -- 2. the property on the printed store of replica i
        match checkRep st1 i d with
        | some why => s!"bad op={idx} tok={tok} {why}"
        | none =>
          let st2 := { st1 with views := st1.views.set i (storeDumps (st1.views.getD i []) d) }
          judgeOps toks outs (idx + 1) st2
      | _, _ => s!"bad op={idx} tok={tok} kind=parse"
    | _ => s!"bad op={idx} tok={tok} kind=parse"
  | _, _, idx, _ => s!"bad op={idx} tok=- kind=parse wrong number of results"

def judge (line : String) : String :=
  let (c, o) := splitTab line
  match parseHead (words c) with
  | none => "ok"
  | some (n, ops) => judgeOps ops (words o) 0 ⟨[], (List.range n).map fun _ => [], []⟩

def run (args : List String) : IO UInt32 := runWith args model judge

end GoaktVerif.Driver.C39

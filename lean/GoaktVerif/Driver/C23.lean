import GoaktVerif.Driver.Util
import GoaktVerif.Model.C23
import GoaktVerif.Spec.C23

/-
Line protocol of C23 (see harness/verifdrv/c23/main.go for the case grammar).
`model` prints what the model of the code yields at the FRAMING level (registry and protobuf are
parameters: tools/props/c23.py resolves them against the implementation's answer exactly as
`Model.C23.finish` does: registry, then metadata, then payload).  `judge` evaluates the spec on
the implementation's output.
-/
namespace GoaktVerif.Driver.C23
open GoaktVerif.Driver GoaktVerif.Model.C23

/-! ### hex and tokens -/

def hexVal (c : Char) : Option Nat :=
  if '0' ≤ c ∧ c ≤ '9' then some (c.toNat - '0'.toNat)
  else if 'a' ≤ c ∧ c ≤ 'f' then some (c.toNat - 'a'.toNat + 10)
  else none

def unhexList : List Char → List UInt8 → Option Bytes
  | [], acc => some acc.reverse
  | [_], _ => none
  | a :: b :: rest, acc =>
    match hexVal a, hexVal b with
    | some x, some y => unhexList rest (UInt8.ofNat (x * 16 + y) :: acc)
    | _, _ => none

def unhex (s : String) : Option Bytes :=
  if s = "-" || s = "" then some [] else unhexList s.toList []

def hexChar (n : Nat) : Char := if n < 10 then Char.ofNat (48 + n) else Char.ofNat (87 + n)

def hxRaw (b : Bytes) : String :=
  String.ofList (b.foldr (fun x acc => hexChar (x.toNat / 16) :: hexChar (x.toNat % 16) :: acc) [])

def hx (b : Bytes) : String := if b.isEmpty then "-" else hxRaw b

def errName : Err → String
  | .invalidLength => "invalidLength"
  | .unknownType => "unknownType"
  | .unmarshalFailed => "unmarshalFailed"
  | .invalidMetadata => "invalidMetadata"
  | .frameTooLarge => "frameTooLarge"
  | .eof => "eof"
  | .unexpectedEOF => "unexpectedEOF"
  | .panic => "panic"

def asciiBytes (s : String) : Bytes := s.toList.map fun c => UInt8.ofNat c.toNat

/-- generated headers `G<n>x<klen>x<vlen>`: key i = decimal i left-padded with 'k', value = 'v'*vlen -/
def genHeaders (n kl vl : Nat) : Headers :=
  (List.range n).map fun i =>
    let d := toString i
    let k := if d.length < kl then String.ofList (List.replicate (kl - d.length) 'k') ++ d else d
    (asciiBytes k, List.replicate vl (UInt8.ofNat 118))

def parseHeaders (s : String) : Option Headers :=
  if s = "" then some [] else
  if s.startsWith "G" then
    match ((s.drop 1).toString.splitOn "x").mapM String.toNat? with
    | some [n, kl, vl] => some (genHeaders n kl vl)
    | _ => none
  else
    (s.splitOn ",").mapM fun kv =>
      match kv.splitOn ":" with
      | [k, v] => match unhex k, unhex v with
        | some k, some v => some (k, v)
        | _, _ => none
      | _ => none

inductive DL | none | abs (v : Int) | rel (x : Int)

/-- md token: `nil`/`none` → no metadata; `<dl>/<headers>` -/
def parseMD (s : String) : Option (Option (DL × Headers)) :=
  if s = "nil" || s = "none" then some Option.none else
  match s.splitOn "/" with
  | [d, h] =>
    match parseHeaders h with
    | Option.none => Option.none
    | some hs =>
      if d = "0" then some (some (DL.none, hs))
      else if d.startsWith "a" then (d.drop 1).toString.toInt?.map fun v => some (if v = 0 then DL.none else DL.abs v, hs)
      else if d.startsWith "r" then (d.drop 1).toString.toInt?.map fun v => some (DL.rel v, hs)
      else Option.none
  | _ => Option.none

def hasDL : DL → Bool
  | .none => false
  | _ => true

def fmtHeaders (hs : Headers) : String :=
  "h=" ++ ",".intercalate ((Spec.C23.sortHeaders hs).map fun kv => hx kv.1 ++ ":" ++ hx kv.2)

/-- replace the 16 hex digits of the last 8 bytes of the metadata block starting at byte `off`
    (length `len`) by `R` when a deadline is set -/
def maskRem (hex : String) (off len : Nat) (dl : Bool) : String :=
  if !dl then hex else
  let cs := hex.toList
  let a := 2 * (off + len - 8)
  String.ofList (cs.take a ++ List.replicate 16 'R' ++ cs.drop (a + 16))

/-! ### model mode -/

def fmtMDopt : Option MD → String
  | Option.none => "nil"
  | some md => fmtHeaders md.headers ++ " rem=" ++ toString md.remaining

/-- framing-level pre-result: `F n= p= m=<nil|err|h=.. rem=..>` or `E <enum>` -/
def fmtPre (r : R Raw) : String :=
  match r with
  | .error e => "E " ++ errName e
  | .ok raw =>
    let m := if raw.metaBytes.length > 0 then
        match mdUnmarshal raw.metaBytes with
        | .error .invalidMetadata => "err"
        | .error e => "err-" ++ errName e
        | .ok md => fmtMDopt (some md)
      else "nil"
    "F n=" ++ hx raw.name ++ " p=" ++ hx raw.payload ++ " m=" ++ m

def preFails (r : R Raw) : Bool :=
  match r with
  | .error _ => true
  | .ok raw => raw.metaBytes.length > 0 && (match mdUnmarshal raw.metaBytes with | .error _ => true | .ok _ => false)

def concatChunks (s : String) : Option Bytes :=
  if s = "-" || s = "" then some [] else ((s.splitOn ",").mapM unhex).map List.flatten

def pool : PoolCfg := ⟨8, 15⟩   -- minBucketShift, numBuckets (tied to the source by Props: Gen constants)

/-- the server loop at the framing level: pre-results until the first definite failure, plus the
    echoed response bytes (`W`) for the frames that decode -/
def srvLoop (max : Nat) : Nat → Bytes → List String → Bytes → List String × Bytes
  | 0, _, acc, w => (acc.reverse, w)
  | fuel + 1, s, acc, w =>
    match readFrame max s with
    | .error _ => (acc.reverse, w)
    | .ok f =>
      let pre := serverFrame f.frame
      if preFails pre then ((fmtPre pre :: acc).reverse, w) else
      let w' := match pre with
        | .ok raw => (match marshal raw.name raw.payload with | .ok b => w ++ b | .error _ => w)
        | .error _ => w
      srvLoop max fuel f.rest (fmtPre pre :: acc) w'

/-- client read loop on response bytes, framing level -/
def cliLoop (max : Nat) : Nat → Bytes → List String → List String × String
  | 0, _, acc => (acc.reverse, "nil")
  | n + 1, s, acc =>
    match readFrame max s with
    | .error e => (acc.reverse, errName e)
    | .ok f =>
      let tries := clientTriesMeta f.frame
      let pre := if tries && !preFails (frameMeta f.frame) then frameMeta f.frame else frameLegacy f.frame
      match pre with
      | .error e => (acc.reverse, errName e)
      | .ok _ => cliLoop max n f.rest (fmtPre pre :: acc)

def encodeWith (name payload : Bytes) (md : Option (DL × Headers)) : R Bytes × Nat × Nat × Bool :=
  match md with
  | Option.none => (marshalWithMeta name payload [], 0, 0, false)
  | some (dl, hs) =>
    let mb := mdMarshal hs (if hasDL dl then 1 else 0)
    (marshalWithMeta name payload mb, 12 + name.length, mb.length, hasDL dl)

def stripRem (s : String) : String :=
  " ".intercalate ((s.splitOn " ").map fun t => if t.startsWith "rem=" then "rem=?" else t)

def model (line : String) : String :=
  match words line with
  | ["enc", n, p] =>
    match unhex n, unhex p with
    | some n, some p => (match marshal n p with | .ok f => "ok " ++ hx f | .error e => "E " ++ errName e)
    | _, _ => "bad-case"
  | ["encm", n, p, md] =>
    match unhex n, unhex p, parseMD md with
    | some n, some p, some md =>
      if (match md with | some (_, hs) => decide (hs.length ≥ 2) | Option.none => false) then "*" else
      let (r, off, len, dl) := encodeWith n p md
      (match r with | .ok f => "ok " ++ maskRem (hx f) off len dl | .error e => "E " ++ errName e)
    | _, _, _ => "bad-case"
  | ["mde", md] =>
    match parseMD md with
    | some (some (dl, hs)) =>
      if hs.length ≥ 2 then "*" else
      let mb := mdMarshal hs (if hasDL dl then 1 else 0)
      "ok " ++ maskRem (hx mb) 0 mb.length (hasDL dl)
    | _ => "bad-case"
  | ["md", b] =>
    match unhex b with
    | some b => (match mdUnmarshal b with
      | .ok md => "ok " ++ fmtMDopt (some md)
      | .error e => "E " ++ errName e)
    | Option.none => "bad-case"
  | ["dec", _, f] => (match unhex f with | some f => fmtPre (frameLegacy f) | Option.none => "bad-case")
  | ["decm", _, f] => (match unhex f with | some f => fmtPre (frameMeta f) | Option.none => "bad-case")
  | ["cli", _, f] =>
    match unhex f with
    | some f => "H=" ++ (if clientTriesMeta f then "1" else "0") ++ " M: " ++ fmtPre (frameMeta f) ++ " U: " ++ fmtPre (frameLegacy f)
    | Option.none => "bad-case"
  | ["rd", max, pl, chunks] =>
    match max.toNat?, concatChunks chunks with
    | some max, some s =>
      let (fs, e) := readAll max s
      "ok f=" ++ ",".intercalate (fs.map hx) ++ " c=" ++
        ",".intercalate (fs.map fun f => toString (if pl = "1" then poolCap pool f.length else f.length)) ++ " e=" ++ errName e
    | _, _ => "bad-case"
  | ["srv", max, reply, _, chunks] =>
    match max.toNat?, concatChunks chunks with
    | some max, some s =>
      let (pres, w) := srvLoop max (s.length + 1) s [] []
      "D " ++ " | ".intercalate pres ++ " W=" ++ (if reply = "1" then hx w else "-")
    | _, _ => "bad-case"
  | ["rt", mode, n, p, md] =>
    match unhex n, unhex p, parseMD md with
    | some n, some p, some mdv =>
      -- decoding is quadratic on lists (index-style model): huge maps are judged by the spec only
      if (match mdv with | some (_, hs) => decide (hs.length > 20000) | Option.none => false) then "*" else
      let fr := if md = "none" then marshal n p else (encodeWith n p mdv).1
      match fr with
      | .error e => "E enc-" ++ errName e
      | .ok f =>
        if mode = "u" then stripRem (fmtPre (frameLegacy f))
        else if mode = "m" then stripRem (fmtPre (frameMeta f))
        else if mode = "s" then
          let (pres, _) := srvLoop (2 ^ 24) (f.length + 1) f [] []
          stripRem ("D " ++ " | ".intercalate pres)
        else if mode = "c" then
          let tries := clientTriesMeta f
          stripRem (fmtPre (if tries && !preFails (frameMeta f) then frameMeta f else frameLegacy f))
        else "bad-case"
    | _, _, _ => "bad-case"
  | ["batch", max, md, msgs] =>
    match max.toNat?, parseMD md with
    | some max, some mdv =>
      let items := if msgs = "-" then some [] else (msgs.splitOn ",").mapM fun it =>
        match it.splitOn ":" with
        | [n, p] => (match unhex n, unhex p with | some n, some p => some (n, p) | _, _ => Option.none)
        | _ => Option.none
      match items with
      | Option.none => "bad-case"
      | some items =>
        -- the whole pipeline through the model: Client.marshalProtoWithContext, the server loop with an
        -- echo handler, the client's batch read loop (all messages of a batch case are well-formed,
        -- so the all-accepting codec stands for the real registry)
        let ctx : Option (Option Bytes) :=
          if md = "nil" then some Option.none
          else match mdv with
            | Option.none => Option.none
            | some (dl, hs) => some (some (mdMarshal hs (if hasDL dl then 1 else 0)))
        let frames := items.mapM fun (n, p) => clientMarshal ctx n p
        match frames with
        | .error e => "E enc-" ++ errName e
        | .ok fs =>
          let (ds, w) := serverEcho Codec.top max fs.flatten
          let fmtD := fun (d : Decoded) => "F n=" ++ hx d.name ++ " p=" ++ hx d.payload ++ " m=" ++ fmtMDopt d.md
          let (rs, e) := match clientReadN Codec.top max items.length w with
            | .ok rs => (rs, "nil")
            | .error e => ([], errName e)
          stripRem ("D " ++ " | ".intercalate (ds.map fmtD) ++ " R " ++ " | ".intercalate (rs.map fmtD) ++ " e=" ++ e)
    | _, _ => "bad-case"
  | ["bi", n] => (match n.toInt? with | some n => toString (bucketIndex pool n) | Option.none => "bad-case")
  | ["bie", c] => (match c.toNat? with | some c => toString (bucketIndexExact pool c) | Option.none => "bad-case")
  | ["get", n] =>
    match n.toInt? with
    | some n => (match poolGet pool n with | .ok (l, c) => s!"{l} {c}" | .error _ => "panic")
    | Option.none => "bad-case"
  | _ => "bad-case"

/-! ### judge mode: the spec evaluated on the implementation's output -/

def tokVal (toks : List String) (key : String) : Option String :=
  (toks.find? (·.startsWith key)).map fun t => (t.drop key.length).toString

def tokVals (toks : List String) (key : String) : List String :=
  (toks.filter (·.startsWith key)).map fun t => (t.drop key.length).toString

structure Times where
  dls : List Int
  t0 : Int
  t1 : Int
  dlin : Int

def parseTimes (s : String) : Option Times :=
  let toks := words s
  match (tokVals toks "dl=").mapM String.toInt?, (tokVal toks "t0=").bind String.toInt?, (tokVal toks "t1=").bind String.toInt? with
  | some dls, some t0, some t1 => some ⟨dls, t0, t1, ((tokVal toks "dlin=").bind String.toInt?).getD 0⟩
  | _, _, _ => Option.none

/-- split `main @ times` -/
def splitAt (o : String) : String × String :=
  match o.splitOn " @ " with
  | [a, b] => (a, b)
  | _ => (o, "")

structure FItem where
  n : Bytes
  p : Bytes
  m : Option Headers   -- none = nil metadata

/-- parse `F n=.. p=.. m=..` (implementation side: m = nil | h=k:v,..) -/
def parseF (s : String) : Option FItem :=
  let toks := words s
  match toks with
  | "F" :: _ =>
    match (tokVal toks "n=").bind unhex, (tokVal toks "p=").bind unhex, tokVal toks "m=" with
    | some n, some p, some m =>
      if m = "nil" then some ⟨n, p, Option.none⟩
      else if m.startsWith "h=" then (parseHeaders (m.drop 2).toString).map fun hs => ⟨n, p, some hs⟩
      else Option.none
    | _, _, _ => Option.none
  | _ => Option.none

def mdMatches (want : Option (DL × Headers)) (got : Option Headers) : Bool :=
  match want, got with
  | Option.none, Option.none => true
  | some (_, hs), some g => Spec.C23.sameMap hs g
  | _, _ => false

def itemOK (n p : Bytes) (want : Option (DL × Headers)) (it : FItem) : Bool :=
  it.n == n && it.p == p && mdMatches want it.m

def dlinOf (want : Option (DL × Headers)) (tm : Times) : Int :=
  match want with
  | some (.abs v, _) => v
  | some (.rel _, _) => tm.dlin
  | _ => 0

def judge (line : String) : String :=
  let (c, o) := splitTab line
  if c.startsWith "get -" then "ok" else
  if o.startsWith "panic" || o.startsWith "CRASH" then "bad the codec panicked: " ++ o else
  let (main, times) := splitAt o
  match words c with
  | ["enc", n, p] =>
    match unhex n, unhex p with
    | some n, some p =>
      if n.isEmpty then (if main = "E unknownType" then "ok" else "bad empty type name accepted")
      else if main = "ok " ++ hx (Spec.C23.frame n p) then "ok" else "bad frame differs from the documented layout"
    | _, _ => "bad-case"
  | ["encm", n, p, md] =>
    match unhex n, unhex p, parseMD md with
    | some n, some p, some mdv =>
      if n.isEmpty then (if main = "E unknownType" then "ok" else "bad empty type name accepted") else
      match mdv with
      | Option.none => if main = "ok " ++ hx (Spec.C23.frameM n [] p) then "ok" else "bad frame differs from the documented layout"
      | some (dl, hs) =>
        match (words main), parseTimes times with
        | ["ok", fh], some tm =>
          match unhex fh with
          | some f =>
            let mlen := 10 + (hs.map fun kv => 4 + kv.1.length + kv.2.length).sum
            let mb := (f.drop (12 + n.length)).take mlen
            match Spec.C23.parseMetadata mb with
            | Option.none => "bad metadata block does not parse"
            | some (whs, rem) =>
              if f != Spec.C23.frameM n (Spec.C23.metadata whs rem) p then "bad frame is not the documented layout for any header order"
              else if !Spec.C23.sameMap whs hs then "bad encoded headers differ from the metadata"
              else if !Spec.C23.remainingOK (match dl with | .abs v => v | .rel _ => tm.dls.headD 0 | .none => 0) tm.t0 tm.t1 rem then "bad remaining-time field outside the clock window"
              else "ok"
          | Option.none => "bad unparsable output"
        | _, _ => "bad unparsable output: " ++ main.take 80
    | _, _, _ => "bad-case"
  | ["mde", md] =>
    match parseMD md with
    | some (some (dl, hs)) =>
      match (words main), parseTimes times with
      | ["ok", fh], some tm =>
        match unhex fh with
        | some mb =>
          match Spec.C23.parseMetadata mb with
          | Option.none => "bad metadata block does not parse"
          | some (whs, rem) =>
            if mb != Spec.C23.metadata whs rem then "bad metadata is not the documented layout for any header order"
            else if !Spec.C23.sameMap whs hs then "bad encoded headers differ from the metadata"
            else if !Spec.C23.remainingOK (match dl with | .abs v => v | .rel _ => tm.dls.headD 0 | .none => 0) tm.t0 tm.t1 rem then "bad remaining-time field outside the clock window"
            else "ok"
        | Option.none => "bad unparsable output"
      | _, _ => "bad unparsable output: " ++ main.take 80
    | _ => "bad-case"
  | ["rt", mode, n, p, md] =>
    match unhex n, unhex p, parseMD md with
    | some n, some p, some mdv =>
      -- the legacy decoder on a metadata frame is not a round trip; nothing to judge beyond "no panic"
      if mode = "u" && md != "none" then "ok" else
      if mode = "m" && md = "none" then "ok" else
      let body := if mode = "s" then (if main.startsWith "D " then (main.drop 2).toString else "?") else main
      match parseF body with
      | Option.none => "bad round trip failed: " ++ main.take 80
      | some it =>
        if !itemOK n p (if md = "none" then Option.none else mdv) it then "bad round trip changed the message, type name or headers"
        else
          match mdv with
          | some _ =>
            match parseTimes times with
            | some tm =>
              if tm.dls.length = 1 && Spec.C23.transferOK (dlinOf mdv tm) tm.t0 tm.t1 (tm.dls.headD 0) then "ok"
              else "bad deadline outside clock tolerance"
            | Option.none => "bad missing deadline report"
          | Option.none => "ok"
    | _, _, _ => "bad-case"
  | ["batch", _, md, msgs] =>
    match parseMD md with
    | some mdv =>
      let items := if msgs = "-" then some [] else (msgs.splitOn ",").mapM fun it =>
        match it.splitOn ":" with
        | [n, p] => (match unhex n, unhex p with | some n, some p => some (n, p) | _, _ => Option.none)
        | _ => Option.none
      match items, main.splitOn " R " with
      | some items, [d, r] =>
        let dparts := if d.trimAscii.toString = "D" then [] else ((d.drop 2).toString.splitOn " | ")
        let rtoks := words r
        let rbody := " ".intercalate (rtoks.filter fun t => !t.startsWith "e=")
        let rparts := if rbody = "" then [] else rbody.splitOn " | "
        match dparts.mapM parseF, rparts.mapM parseF with
        | some ds, some rs =>
          if tokVal rtoks "e=" != some "nil" then "bad batch read failed"
          else if ds.length != items.length || rs.length != items.length then "bad frames lost or invented in the batch"
          else if !((items.zip ds).all fun ((n, p), it) => itemOK n p mdv it) then "bad server decoded a different request (order, name, payload or headers)"
          else if !((items.zip rs).all fun ((n, p), it) => itemOK n p Option.none it) then "bad client decoded a different response"
          else
            match mdv with
            | some _ =>
              if items.isEmpty then "ok" else
              match parseTimes times with
              | some tm => if tm.dls.length = items.length && tm.dls.all (fun dl => Spec.C23.transferOK (dlinOf mdv tm) tm.t0 tm.t1 dl) then "ok" else "bad deadline outside clock tolerance"
              | Option.none => "bad missing deadline report"
            | Option.none => "ok"
        | _, _ => "bad unparsable batch output"
      | _, _ => "bad unparsable batch output"
    | Option.none => "bad-case"
  | ["rd", max, _, chunks] =>
    match max.toNat?, (if chunks = "-" then some [] else (chunks.splitOn ",").mapM unhex) with
    | some max, some cs =>
      let toks := words main
      match tokVal toks "f=", tokVal toks "c=", tokVal toks "e=" with
      | some fs, some caps, some e =>
        match (if fs = "" then some [] else (fs.splitOn ",").mapM unhex), commaNats? caps with
        | some frames, some caps =>
          let stream := cs.flatten
          if !frames.all (fun f => decide (f.length ≤ max)) then "bad frame longer than the frame limit was read"
          else if !frames.all (Spec.C23.wellFramed max) then "bad reader returned a frame whose length prefix is not its length (or below the 8-byte minimum)"
          else if !caps.all (fun c => decide (c ≤ Nat.max max 256) || decide (c ≤ 2 * max)) then "bad buffer beyond the frame limit"
          else if frames.flatten != stream.take frames.flatten.length then "bad frames are not the stream read in order"
          else if cs.all (Spec.C23.wellFramed max) && (frames != cs || e != "eof") then "bad concatenated frames were not read back one by one"
          else "ok"
        | _, _ => "bad unparsable output"
      | _, _, _ => "bad unparsable output"
    | _, _ => "bad-case"
  | ["srv", max, reply, v, chunks] =>
    match max.toNat?, (if chunks = "-" then some [] else (chunks.splitOn ",").mapM unhex) with
    | some max, some cs =>
      if v != "1" then "ok" else
      let toks := words main
      let body := " ".intercalate (toks.filter fun t => !t.startsWith "W=")
      let dparts := if body = "D" then [] else ((body.drop 2).toString.splitOn " | ")
      match dparts.mapM parseF, (tokVal toks "W=").bind unhex with
      | some ds, some w =>
        -- complete frames: nothing beyond the first frame that exceeds the limit may be handled
        if cs.all (Spec.C23.wellFramed (2 ^ 32)) && decide (ds.length > (cs.takeWhile fun f => decide (f.length ≤ max)).length) then
          "bad server accepted a frame longer than the frame limit"
        else if !cs.all (Spec.C23.wellFramed max) then "ok"
        else if ds.length != cs.length then "bad server did not decode every frame of the stream"
        else if reply = "1" && w != (ds.map fun it => Spec.C23.frame it.n it.p).flatten then "bad responses are not the echoed requests in order"
        else "ok"
      | _, _ => "bad unparsable output"
    | _, _ => "bad-case"
  | ["bi", n] =>
    match n.toInt?, main.toNat? with
    | some n, some i => if i = Spec.C23.smallestBucket 8 15 n.toNat then "ok" else "bad not the smallest bucket"
    | _, _ => "bad unparsable output"
  | ["get", n] =>
    match n.toInt?, nats? (words main) with
    | some n, some [l, c] => if n < 0 then "ok" else if l = n.toNat && c ≥ l && (c ≤ 256 || c < 2 * l) then "ok" else "bad pool buffer has the wrong size"
    | some n, _ => if n < 0 then "ok" else "bad unparsable output"
    | _, _ => "bad-case"
  | _ => "ok"

def run (args : List String) : IO UInt32 := runWith args model judge

end GoaktVerif.Driver.C23

import GoaktVerif.Driver.Conc
import GoaktVerif.Model.C01

namespace GoaktVerif.Driver.C01
open GoaktVerif.Driver GoaktVerif.Model.C01

def machine : Machine where
  Cfg := Cfg
  init := fun cfg progs =>
    match nats? (words cfg) with
    | some [_nw, budget] =>
      let progs := progs.map (·.map parseOp)
      if budget ≥ 1 && wellFormed progs then some (Model.C01.init budget progs) else none
    | _ => none
  nthreads := fun c => c.threads.length
  done := Model.C01.done
  step := Model.C01.step
  results := fun c => c.threads.map fun t => t.results.reverse
  final := Model.C01.final

/-- cases whose cfg names a mailbox kind (third word) are oracle-only: the model covers the default mailbox -/
def oracleOnly (line : String) : Bool := (words ((line.splitOn "|").headD "")).length == 3

def model (line : String) : String := if oracleOnly line then "*" else runConc machine line

/-- spec oracle on the implementation's output (C01: O ≤ 1; C02: every accepted Tell handled exactly
    once, nothing else handled, nothing left pending, per-thread order kept) -/
def judge (line : String) : String :=
  let (c, o) := splitTab line
  if oracleOnly c then "ok deferred to the python oracle" else
  match (o.splitOn " | F ") with
  | [_, fin] =>
    let fields := words fin
    let get (k : String) : String := ((fields.find? (·.startsWith k)).map (fun s => (s.drop k.length).toString)).getD ""
    let handled := (get "H=").splitOn "," |>.filter (· ≠ "")
    let o' := (get "O=").toNat?.getD 99
    if o' > 1 then s!"bad C01: {o'} handler invocations in progress at once"
    else if get "P=" ≠ "false" then "bad C02: a published message is still pending after every worker went idle (lost wake-up)"
    else
      -- accepted tells: ops t<k> whose result is ok
      match (c.splitOn "|"), (o.splitOn " | R ") with
      | [_, progs, _], [_, rest] =>
        let rs := ((rest.splitOn " | F ").headD "").splitOn ";" |>.map (fun r => r.splitOn ",")
        let ps := (progs.splitOn ";").map words
        let acc := (ps.zip rs).flatMap fun (p, r) => (p.zip r).filterMap fun (op, res) =>
          if op.startsWith "t" && res = "ok" then some (op.drop 1).toString else none
        let hm := handled.filter (· ≠ "ps")
        if hm.any (fun h => hm.count h > 1) then "bad C02: a message was handled twice"
        else if !(ps.any fun p => p.head? == some "r") && acc.any (fun a => !hm.contains a) then
          -- (with a restart thread a message dequeued while the actor is stopped is legitimately not handled:
          --  the property only covers actors that stay running until the message is dequeued)
          "bad C02: an accepted message was never handled"
        else if hm.any (fun h => !acc.contains h) then "bad C02: a message was handled that was not accepted"
        else
          -- per-sender order
          let okOrder := (ps.zip rs).all fun (p, r) =>
            let mine := (p.zip r).filterMap fun (op, res) => if op.startsWith "t" && res = "ok" then some (op.drop 1).toString else none
            (hm.filter (mine.contains ·)) == (mine.filter (hm.contains ·))
          if okOrder then "ok" else "bad C03: one sender's messages were handled out of order"
      | _, _ => "bad unparsable"
  | _ => if o.startsWith "bad-case" then "ok" else "bad unparsable: " ++ o

def run (args : List String) : IO UInt32 := runWith args model judge

end GoaktVerif.Driver.C01

/-
Go integer semantics that differ from Lean's fixed-width defaults.
Go: `x << s` and `x >> s` with an unsigned count `s`: a count ≥ the width gives 0
(or the sign fill for signed `>>`); Lean's `<<<`/`>>>` reduce the count modulo the width.
-/
namespace GoaktVerif.GoSem

def shlInt64 (a : Int64) (s : UInt64) : Int64 := if s ≥ 64 then 0 else a <<< s.toInt64
def shrInt64 (a : Int64) (s : UInt64) : Int64 :=
  if s ≥ 64 then (if a < 0 then -1 else 0) else a >>> s.toInt64
def shlUInt64 (a : UInt64) (s : UInt64) : UInt64 := if s ≥ 64 then 0 else a <<< s
def shrUInt64 (a : UInt64) (s : UInt64) : UInt64 := if s ≥ 64 then 0 else a >>> s
def shlUInt32 (a : UInt32) (s : UInt64) : UInt32 := if s ≥ 32 then 0 else a <<< s.toUInt32
def shrUInt32 (a : UInt32) (s : UInt64) : UInt32 := if s ≥ 32 then 0 else a >>> s.toUInt32
def shlInt32 (a : Int32) (s : UInt64) : Int32 := if s ≥ 32 then 0 else a <<< s.toInt64.toInt32
def shrInt32 (a : Int32) (s : UInt64) : Int32 :=
  if s ≥ 32 then (if a < 0 then -1 else 0) else a >>> s.toInt64.toInt32

end GoaktVerif.GoSem
